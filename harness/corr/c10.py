"""C10 — durations and explicit ranges are arithmetically self-consistent.

Lean: RTV.Props.C10 (duration TIMEX reads back as N of the unit, value = N × seconds(unit), the regenerated duration
tables of every culture are consistent with the unit codes, luis_time_span loses nothing, the (begin,end,PnD) triple
written for two dates is self-consistent for ALL valid dates) over RTV/Model/WellFormed.lean.
Correspondence / pipeline:
  unit      `durationTimex` / value against BaseDurationParser.parse_number_with_unit driven with the real parser on
            "N <spelling>" for every spelling of every culture's unit_map; DateTimeFormatUtil.luis_time_span and
            TimexUtil.generate_date_period_timex against the model;
  pipeline  (a) N × every unit spelling through recognize_datetime: one duration entity, TIMEX P[T]N<U>, value N×len;
            (b) ordered pairs of absolute dates / clock times: "from A to B", "between A and B" resolve to exactly those
                end points with a consistent triple;
            (c) `tripleOK` (Lean predicate) on every range entity produced over the Python-supported DateTime Specs inputs
                of every culture (same run as C11: cached)."""
import datetime
import os

from lib import common, recog, dtpipe, dtcorpus, periodcorr
from lib import durationcorr
from lib import dtperiodcorr
from lib import period2corr
from lib import zhcorr2
from lib.common import cps, uncps

PROP = 'C10'
LEVEL = 'proof'
PROPS_MODULES = ['RTV.Props.C10', 'RTV.Props.C10Periods', 'RTV.Props.C10Durations', 'RTV.Props.C10DtPeriod',
                 'RTV.Props.C10Periods2', 'RTV.Props.C10Zh']
GEN = ['chartables', 'durationmaps']
REQUIRED_THEOREMS = ['duration_timex_reads_back', 'duration_value_matches_timex', 'luis_time_span_inverse',
                     'between_dates_consistent', 'between_times_consistent', 'unit_tables_consistent',
                     # Props/C10Periods: the range computations of BaseDatePeriodParser
                     'simple_case_definite_ok', 'merge_definite_ok', 'merge_pairs_ordered', 'duration_days_weeks_ok',
                     'month_with_year_wellformed', 'quarter_definite_ok', 'week_of_month_ranges', 'which_week_spec',
                     # Props/C10Durations: every path of BaseDurationParser over a software binary64, BaseSetParser
                     'assemble_shape', 'space_integer_exact', 'combined_integer_exact', 'space_half_exact', 'combined_guard',
                     'decimal_binary64_exact', 'merged_duration_unparsed', 'unit_first_character_witness', 'set_values',
                     # the repaired variants (fix: duration unit codes / fix: duration value)
                     'fixed_multiplied_code', 'fixed_decades', 'fixed_fortnights', 'fixed_weekend', 'fixed_value_exact',
                     'fixed_multiplied_is_exact_product', 'fixed_multiplied_fraction', 'multiplied_float_witness',
                     # Props/C10DtPeriod: the computations of BaseDateTimePeriodParser
                     'relative_unit_ok', 'rest_of_day_ok', 'parse_duration_past', 'parse_duration_future',
                     'parse_duration_no_prefix_rejected', 'part_of_day_inside_one_day', 'specific_time_of_day_ok',
                     'simple_cases_ok', 'simple_cases_reversed_rejected', 'merge_both_ok', 'merge_begin_date_ok',
                     'merge_begin_date_reversed_witness', 'date_period_ok', 'date_period_cross_midnight_rejected',
                     # … its repaired variants (findings/dtperiod/*.diff; the correspondence probes which one the tree follows)
                     'variants_prefix', 'merge_begin_date_fixed_ok', 'merge_end_date_fixed_ok', 'date_period_fixed_ok',
                     # Props/C10Periods2: DateContext, year-context merges, complex periods, parse order, decades, month/year durations
                     'duration_past_exact', 'duration_next_exact', 'duration_in_exact', 'set_date_with_context_valid',
                     'sync_year_valid', 'merge_year_context_ordered', 'first_success_spec', 'order_observable_witness',
                     'complex_months_year_context', 'complex_witnesses', 'decade_unported_never_succeeds', 'decade_fixed_century',
                     # Props/C10Zh: the Chinese time-period / date-time-period / set / holiday parsers
                     'zh_time_period_values', 'zh_time_period_triple_ok', 'zh_right_end_rule', 'zh_merge_date_period_ok',
                     'zh_cross_midnight_witness', 'zh_past_n_units', 'zh_future_n_units', 'zh_specific_night_ok',
                     'zh_fixed_holidays_every_year', 'zh_variable_holidays_every_year', 'zh_holiday_year_truncated_witness',
                     'zh_set_first_success']
RULE = ('N in {1,2,3,7,30,365,1000,5000} (quick: 3 of them per spelling) × every spelling of every culture\'s duration '
        'unit_map; ordered pairs of absolute dates and of clock times in English; every range entity over the '
        'Python-supported DateTime Specs inputs of all cultures; non-trivial = distinct query that produced an entity of '
        'the expected type')
ASSUMPTIONS = ['the regex front end that finds "N <unit>" and the period parsers\' plumbing are not modelled (pipeline only)',
               'months and years have no fixed length: their triples are checked by calendar arithmetic, their duration value '
               'against the conventional 30 / 365 days of UnitValueMap']
BASIC = ('Y', 'MON', 'W', 'D', 'H', 'M', 'S')
REF = datetime.datetime(2019, 6, 12, 10, 0, 0)
NS = [1, 2, 3, 7, 30, 365, 1000, 5000]


def duration_rows(ctx=None):
    """(culture, spelling, unit, seconds, the culture's duration parser) for every spelling the committed contract
    /verif/contracts/C10durations.json demands (written once from the unchanged tree by harness/mkcontract_c10.py and
    reviewed: the expectation does not come from the tree under test, so an edit of a unit table cannot silently shrink
    or bend what is demanded).  The tree's own tables are compared with the contract: a contract spelling the tree no
    longer maps (or maps to another unit / length) is a correspondence break AND is still demanded; a key of the tree the
    contract does not know is demanded as before (the tree claims it) and listed in the evidence.  Everything that is not
    turned into a row is counted by reason in the evidence (`duration_rows`)."""
    import json
    with open(os.path.join(common.VERIF, 'contracts', 'C10durations.json'), encoding='utf-8') as f:
        contract = json.load(f)
    skipped = {}

    def skip(reason, n=1):
        skipped[reason] = skipped.get(reason, 0) + n
    rows, unknown, drift = [], [], []
    seen_cultures = set()
    for (rec, mt, cul) in recog.all_pairs():
        if rec != 'DateTime':
            continue
        seen_cultures.add(cul)
        m = recog.get_model(rec, mt, cul)
        dp = getattr(m.parser.config, 'duration_parser', None)
        cfg = getattr(dp, 'config', None)
        um = getattr(cfg, 'unit_map', None) or {}
        uv = getattr(cfg, 'unit_value_map', None) or {}
        want = contract['spellings'].get(cul, {})
        notd = contract['not_demanded'].get(cul, {})
        if cul in contract['cultures_without_table']:
            skip('%s: %s' % (cul, contract['cultures_without_table'][cul]))
            if um:
                unknown.append('%s: the contract says this culture has no unit table, the tree has one' % cul)
        elif not um or not uv or not hasattr(dp, 'parse_number_with_unit'):
            drift.append((cul, None, 'the duration parser of the tree has no unit_map / unit_value_map; the contract lists %d '
                          'spellings' % len(want)))
            continue
        for k, (code, secs) in want.items():
            if k not in um or um[k] != code or k not in uv or int(uv[k]) != secs:
                drift.append((cul, k, 'contract %s = %s / %d s, tree unit_map %r, unit_value_map %r' % (
                    k, code, secs, um.get(k), uv.get(k))))
            rows.append((cul, k, code, secs, dp))
        for k in um:
            if k in want:
                continue
            if k in notd:
                skip('%s: not demanded by the contract: %s' % (cul, notd[k].split(' (')[0].split(':')[0]))
            elif k in uv and um[k] in BASIC:
                unknown.append('%s: %r (%s) is in the tree, not in the contract: demanded all the same' % (cul, k, um[k]))
                rows.append((cul, k, um[k], int(uv[k]), dp))
            else:
                unknown.append('%s: %r (%s) is in the tree, not in the contract, and is no N x basic unit' % (cul, k, um[k]))
                skip('%s: tree key unknown to the contract and not a basic unit' % cul)
    for cul in contract['spellings']:
        if cul not in seen_cultures:
            drift.append((cul, None, 'the contract lists the culture, the tree has no DateTime model for it'))
    if ctx is not None:
        ctx.extra['duration_rows'] = {'contract': 'contracts/C10durations.json', 'rows': len(rows),
                                      'not_turned_into_rows_by_reason': dict(sorted(skipped.items())),
                                      'tree_keys_unknown_to_the_contract': unknown[:40]}
        for cul, k, why in drift:
            ctx.report('correspondence', 'duration-contract:%s:%s' % (cul, k), 'unit table differs from the committed contract: ' + why,
                       failing_input={'culture': cul, 'spelling': k, 'detail': why}, property_fails=False)
    return rows


def correspond(ctx):
    common.setup_repo_imports()
    import recognizers_date_time
    common.assert_tree_modules(recognizers_date_time)
    from recognizers_date_time.date_time.utilities import DateTimeFormatUtil, TimexUtil
    r = ctx.rng('c10')
    rows = duration_rows(ctx)

    # ------------------------------------------------------------- unit level
    lines, expect = [], []
    unit_skips = ctx.extra.setdefault('duration_unit_tie_skipped_by_reason', {})
    for (cul, sp, code, secs, dp) in rows:
        for n in (NS if ctx.thorough else [1, 7, 5000]):
            try:
                res = dp.parse_number_with_unit('%d %s' % (n, sp), REF)
                out = '%s %s' % (cps(res.timex), res.future_value) if res.success else 'nosuccess'
            except Exception as e:
                out = 'err:' + type(e).__name__
            if out == 'nosuccess':
                # the front end does not take this spelling after a number: not the arithmetic's business (the pipeline
                # oracle below demands the expression all the same); counted
                unit_skips['parse_number_with_unit: no success'] = unit_skips.get('parse_number_with_unit: no success', 0) + 1
                continue
            if res.success and not res.timex.lstrip('PT').startswith('%d%s' % (n, code[0])):
                # another path of the parser fired ("1 h and a quarter", half units): not N × unit; counted
                unit_skips['another path fired: ' + cul] = unit_skips.get('another path fired: ' + cul, 0) + 1
                continue
            lines.append('durtimex\t%d\t%s' % (n, cps(code)))
            expect.append(out)
    for _ in range(2000 if ctx.thorough else 300):
        secs = r.choice([0, 1, 59, 60, 3599, 3600, 86399, 86400, 90061]) if r.random() < 0.3 else r.randint(0, 400000)
        b = datetime.datetime(2019, 1, 1, 0, 0, 0)
        lines.append('tspan\t%d' % secs)
        expect.append(cps(DateTimeFormatUtil.luis_time_span(b, b + datetime.timedelta(seconds=secs))))
    model = common.driver(lines)
    ctx.count('unit: duration timex/value, luis_time_span', len(lines))
    for l, a, b in zip(lines, expect, model):
        if a != b:
            ctx.report('correspondence', l.split('\t')[0], '%r: implementation %r, model %r' % (l, a, b),
                       failing_input={'op': l, 'implementation': a, 'model': b}, property_fails=False)
    # generate_date_period_timex vs the Lean triple predicate (it must accept what the code writes for real dates)
    ents = []
    for _ in range(400 if ctx.thorough else 100):
        b = datetime.datetime(1900, 1, 1) + datetime.timedelta(days=r.randint(0, 73000))
        e = b + datetime.timedelta(days=r.choice([0, 1, 7, 28, 31, 365, 366, r.randint(1, 4000)]))
        tx = TimexUtil.generate_date_period_timex(b, e, 0, b, e)
        ents.append({'type_name': 'datetimeV2.daterange',
                     'values': [{'type': 'daterange', 'timex': tx, 'start': DateTimeFormatUtil.format_date(b),
                                 'end': DateTimeFormatUtil.format_date(e)}]})
    for e, (tn, vs) in zip(ents, dtcorpus.evaluate_wf(ents)):
        ctx.count('unit: generate_date_period_timex')
        if not vs[0][2]:
            ctx.report('correspondence', 'generate_date_period_timex', 'the triple %r is rejected by tripleOK' % e['values'][0],
                       failing_input=e, property_fails=True)

    # the range computations of BaseDatePeriodParser (RTV.Model.Periods, theorems in Props/C10Periods) against the real methods
    periodcorr.unit(ctx, n_refs=120)
    durationcorr.unit(ctx)   # BaseDurationParser (all paths) / BaseSetParser against RTV.Model.Durations, 8 cultures
    period2corr.run(ctx)     # DateContext + the rest of BaseDatePeriodParser against RTV.Model.Periods2 (unit) + year-context pipeline oracles
    dtperiodcorr.run(ctx)    # BaseDateTimePeriodParser against RTV.Model.DtPeriod (unit) + triple oracle on its expression families
    zhcorr2.run(ctx)         # Chinese time-period / date-time-period / set / holiday parsers against RTV.Model.ZhTimePeriod (unit + pipeline)

    # ------------------------------------------------------------- pipeline (a): N × spelling
    jobs, meta = [], []
    for (cul, sp, code, secs, dp) in rows:
        if cul in ('zh-cn', 'ja-jp'):
            ctx.extra['duration_rows'].setdefault('pipeline_rows_skipped', {}).setdefault(cul, 0)
            ctx.extra['duration_rows']['pipeline_rows_skipped'][cul] += 1
            continue
        ns = NS if ctx.thorough else [NS[(len(sp) + i * 3) % len(NS)] for i in range(3)]
        for n in sorted(set(ns)):
            jobs.append((cul, '%d %s' % (n, sp), REF))
            meta.append((cul, sp, code, secs, n))
    res = dtpipe.run(jobs)
    want_lines = ['durtimex\t%d\t%s' % (m[4], cps(m[2])) for m in meta]
    want = common.driver(want_lines) if want_lines else []
    for j, m, got, w in zip(jobs, meta, res, want):
        ctx.count('duration %s' % m[0])
        wt, wv = w.rsplit(' ', 1)
        wt = uncps(wt)
        ok, why = False, ''
        if isinstance(got, str):
            why = got
        else:
            durs = [e for e in got if e['type_name'] == 'datetimeV2.duration' and e['values']]
            if len(durs) != 1 or len(got) != 1:
                why = '%d entities (%d durations)' % (len(got), len(durs))
            else:
                e = durs[0]
                v = e['values'][0]
                if (e['start'], e['end']) != (0, len(j[1]) - 1):
                    why = 'span [%d,%d]' % (e['start'], e['end'])
                elif v.get('timex') != wt:
                    why = 'timex %r, expected %r' % (v.get('timex'), wt)
                elif v.get('value') != wv:
                    why = 'value %r, expected %r' % (v.get('value'), wv)
                else:
                    ok = True
        if ok:
            ctx.nontriv(('dur', j[0], j[1]))
            ctx.passed('%s|%s' % (j[0], j[1]))         # stale where a committed failing set lists the input
        else:
            # the recorded `duration:<culture>:<spelling>` findings carry failing sets (findings/sets/C10): exactly the
            # `N <spelling>` inputs that fail on the unchanged tree; another N of the same spelling is a new violation
            ctx.report('property', 'duration:%s:%s' % (m[0], m[1]), '%s %r: %s; got %r' % (
                m[0], j[1], why, got if isinstance(got, str) else [(e['text'], e['type_name'], e['values']) for e in got][:3]),
                failing_input={'culture': m[0], 'query': j[1], 'expected_timex': wt, 'expected_value': wv,
                               'got': got if isinstance(got, str) else got[:3]}, property_fails=True)
    if jobs:
        ctx.sample({'query': jobs[0][1], 'culture': jobs[0][0], 'result': res[0] if not isinstance(res[0], str) else res[0]})

    # ------------------------------------------------------------- pipeline (b): explicit ranges from two end points
    from lib.dtcorpus import MONTHS
    jobs, meta = [], []
    npairs = 120 if ctx.thorough else 30
    for i in range(npairs):
        a = datetime.date(1900, 1, 1) + datetime.timedelta(days=r.randint(0, 72000))
        b = a + datetime.timedelta(days=r.choice([1, 2, 7, 27, 31, 59, 365, 366, r.randint(1, 900)]))
        fa = ['%04d-%02d-%02d' % (a.year, a.month, a.day), '%s %d, %d' % (MONTHS[a.month - 1], a.day, a.year)][i % 2]
        fb = ['%04d-%02d-%02d' % (b.year, b.month, b.day), '%s %d, %d' % (MONTHS[b.month - 1], b.day, b.year)][i % 2]
        for tmpl in ('from %s to %s', 'between %s and %s'):
            jobs.append(('en-us', tmpl % (fa, fb), REF))
            meta.append(('date', a.isoformat(), b.isoformat(), (b - a).days))
    for i in range(npairs):
        s1 = r.randint(0, 22 * 3600)
        s2 = r.randint(s1 + 60, 24 * 3600 - 1)
        s1 -= s1 % 60
        s2 -= s2 % 60
        t = lambda s: '%02d:%02d' % (s // 3600, s // 60 % 60)
        for tmpl in ('from %s to %s', 'between %s and %s'):
            jobs.append(('en-us', tmpl % (t(s1), t(s2)), REF))
            meta.append(('time', t(s1) + ':00', t(s2) + ':00', s2 - s1))
    # date-time ranges: start date+time to end date+time, spanning 0..3 days with every kind of remainder (whole days plus
    # only minutes, plus hours, exact multiples of 24 h)
    for i in range(npairs):
        a = datetime.datetime(2019, 1, 1) + datetime.timedelta(days=r.randint(0, 700), hours=r.choice([0, 9, 15, 23]),
                                                               minutes=r.choice([0, 0, 30]))
        delta = datetime.timedelta(days=i % 4, hours=r.choice([0, 0, 1, 5]), minutes=r.choice([0, 30, 45]))
        if delta.total_seconds() == 0:
            delta = datetime.timedelta(days=1)
        b = a + delta
        if b.date() == a.date() and b.hour < 13 and a.hour < 13 and False:
            continue
        def fdt(x):
            h12 = x.hour % 12 or 12
            return '%s %d %d %d:%02d%s' % (MONTHS[x.month - 1].lower(), x.day, x.year, h12, x.minute, 'am' if x.hour < 12 else 'pm')
        jobs.append(('en-us', 'from %s to %s' % (fdt(a), fdt(b)), REF))
        meta.append(('datetime', a.strftime('%Y-%m-%d %H:%M:%S'), b.strftime('%Y-%m-%d %H:%M:%S'), int(delta.total_seconds())))
    # date on the FIRST end point only, end time given to the second ("from jan 5 2018 3pm to 5:30:45pm")
    for i in range(npairs):
        a = datetime.datetime(2018, 1, 1) + datetime.timedelta(days=r.randint(0, 700), hours=r.choice([13, 14, 15, 16]))
        b = a.replace(hour=r.choice([17, 18, 20, 22]), minute=r.choice([0, 5, 30, 59]), second=r.choice([0, 1, 15, 45, 59]))
        h12 = lambda x: x.hour % 12 or 12
        q = 'from %s %d %d %dpm to %d:%02d:%02dpm' % (MONTHS[a.month - 1].lower(), a.day, a.year, h12(a), h12(b), b.minute, b.second)
        jobs.append(('en-us', q, REF))
        meta.append(('datetime', a.strftime('%Y-%m-%d %H:%M:%S'), b.strftime('%Y-%m-%d %H:%M:%S'), int((b - a).total_seconds())))
    # Chinese time ranges given to the second (afternoon hours, so the reading is unique)
    for i in range(npairs):
        h1 = r.randint(1, 9)
        h2 = r.randint(h1 + 1, 11)
        m1, m2 = r.choice([0, 5, 20, 59]), r.choice([0, 5, 20, 59])
        if i % 3 == 0:
            m2 = m1
        s1, s2 = r.choice([0, 10, 40, 59]), r.choice([0, 15, 40, 59])
        q = '下午%d点%d分%d秒到下午%d点%d分%d秒' % (h1, m1, s1, h2, m2, s2)
        jobs.append(('zh-cn', q, REF))
        meta.append(('time', '%02d:%02d:%02d' % (h1 + 12, m1, s1), '%02d:%02d:%02d' % (h2 + 12, m2, s2),
                     (h2 - h1) * 3600 + (m2 - m1) * 60 + (s2 - s1)))
    res = dtpipe.run(jobs)
    ents, idx = [], []
    for k, (j, m, got) in enumerate(zip(jobs, meta, res)):
        ctx.count('explicit %s range' % m[0])
        why = ''
        if isinstance(got, str) or len(got) != 1 or not got[0]['values']:
            why = 'not exactly one entity with values'
        else:
            e = got[0]
            # a clock time before 13:00 written without am/pm has two readings (C07): the stated end points must be one
            # of them; every reading must be a consistent triple (checked below)
            hits = [v for v in e['values'] if v.get('type') == m[0] + 'range' and v.get('start') == m[1] and v.get('end') == m[2]]
            if any(v.get('type') != m[0] + 'range' for v in e['values']):
                why = 'types %r' % [v.get('type') for v in e['values']]
            elif not hits:
                why = 'end points %r, expected %r..%r' % ([(v.get('start'), v.get('end')) for v in e['values']], m[1], m[2])
            elif m[0] == 'date' and len(e['values']) != 1:
                why = '%d values for a date range' % len(e['values'])
            elif (e['start'], e['end']) != (0, len(j[1]) - 1):
                why = 'span [%d,%d]' % (e['start'], e['end'])
            else:
                ents.append(e)
                idx.append(k)
        if why:
            ctx.report('property', 'explicit-range:%s:%s:%s' % (j[0], m[0], 'from-to' if j[1].startswith('from') else ('zh' if j[0] == 'zh-cn' else 'between-and')),
                       '%r: %s; got %r' % (j[1], why, got if isinstance(got, str) else [(e['text'], e['values']) for e in got][:3]),
                       failing_input={'query': j[1], 'expected': m, 'got': got if isinstance(got, str) else got[:3]},
                       property_fails=True)
    for k, e, (tn, vs) in zip(idx, ents, dtcorpus.evaluate_wf(ents)):
        if all(t for (_s, _d, t) in vs):
            ctx.nontriv(('range', jobs[k][1]))
        else:
            ctx.report('property', 'explicit-range-triple:%s:%s' % (jobs[k][0], meta[k][0]), '%r: timex %r is not consistent with %r..%r' % (
                jobs[k][1], e['values'][0].get('timex'), e['values'][0].get('start'), e['values'][0].get('end')),
                failing_input={'query': jobs[k][1], 'entity': e}, property_fails=True)

    # ------------------------------------------------------------- pipeline (c): tripleOK over the Specs inputs
    sjobs = dtcorpus.specs_jobs()
    sres = dtpipe.run(sjobs)
    ents, meta = [], []
    for j, got in zip(sjobs, sres):
        ctx.count('specs input')
        if isinstance(got, str):
            continue
        for e in got:
            if e['values'] and any(str(v.get('timex', '')).startswith('(') for v in e['values']):
                ents.append(e)
                meta.append(j)
    for j, e, (tn, vs) in zip(meta, ents, dtcorpus.evaluate_wf(ents)):
        bad = [v for v, (s, d, t) in zip(e['values'], vs) if not t]
        if bad:
            what = [(e['start'], e['end'], v.get('timex'), v.get('start'), v.get('end')) for v in bad]
            ctx.report('property', 'triple:%s' % dtcorpus.input_key2(j[0], j[1], j[2], what),
                       '%s %r (reference %s): %r' % (j[0], j[1], j[2], bad[:2]),
                       failing_input={'culture': j[0], 'query': j[1], 'reference': str(j[2]), 'values': bad[:2]},
                       property_fails=True, fallback=('triple:%s' % dtcorpus.input_key(j[0], j[1]),))
        else:
            ctx.nontriv(('specs', j[0], j[1]))
    ctx.extra['range_entities_with_triple_timex'] = len(ents)
