#!/venv/bin/python
"""Regenerates /verif/contracts/C10durations.json: the duration unit spellings of every culture that property C10's
"N x unit" oracle DEMANDS (harness/corr/c10.py, pipeline (a) and the unit tie), with the basic TIMEX unit and the length in
seconds each one stands for.

Run ONCE at design time on the unchanged tree and reviewed by hand (audit items 25 / 36: the check used to read the rows
from the working tree's own `unit_map` / `unit_value_map` at run time, so a change of those tables silently changed —
or shrank — what was demanded, and every `continue` was invisible).  The checks only read the file; they never regenerate
it.  Three sections:
  spellings     {culture: {spelling: [unit, seconds]}}   demanded: `N <spelling>` is one duration entity P[T]N<unit>
  not_demanded  {culture: {spelling: reason}}            keys of the culture's unit_map that are NOT `N x basic unit`
                                                         expressions (compound units such as `decade` = 10Y, keys without
                                                         a unit value, words that are not units at all: nl-nl `vandaag` = today)
  cultures_without_table  {culture: reason}              cultures whose duration parser has no unit_map (zh-cn: its own
                                                         parser, covered by lib/zhcorr2)"""
import json
import os
import sys

HERE = os.path.dirname(os.path.abspath(__file__))
sys.path.insert(0, HERE)
from lib import common, recog  # noqa: E402

BASIC = ('Y', 'MON', 'W', 'D', 'H', 'M', 'S')
# hand-reviewed: keys of a unit_map that are no unit spellings (an "N <word>" built from them is an artefact, not an
# expression the property is about)
NOT_UNITS = {('nl-nl', 'vandaag'): "'vandaag' = today: not a unit of time; `1 vandaag` is not a duration expression"}


def main():
    common.setup_repo_imports()
    out = {'_comment': __doc__.split('\n\n')[0].replace('\n', ' '), 'spellings': {}, 'not_demanded': {},
           'cultures_without_table': {}}
    for (rec, mt, cul) in recog.all_pairs():
        if rec != 'DateTime':
            continue
        m = recog.get_model(rec, mt, cul)
        dp = getattr(m.parser.config, 'duration_parser', None)
        cfg = getattr(dp, 'config', None)
        um = getattr(cfg, 'unit_map', None)
        uv = getattr(cfg, 'unit_value_map', None)
        if not um or not uv:
            out['cultures_without_table'][cul] = '%s has no unit_map / unit_value_map' % type(dp).__name__
            continue
        for k in um:
            if (cul, k) in NOT_UNITS:
                out['not_demanded'].setdefault(cul, {})[k] = NOT_UNITS[(cul, k)]
            elif um[k] not in BASIC:
                out['not_demanded'].setdefault(cul, {})[k] = 'unit %r is not one of Y MON W D H M S (compound unit)' % um[k]
            elif k not in uv:
                out['not_demanded'].setdefault(cul, {})[k] = 'no entry in unit_value_map (the parser cannot give it a length)'
            else:
                out['spellings'].setdefault(cul, {})[k] = [um[k], int(uv[k])]
    path = os.path.join(common.VERIF, 'contracts', 'C10durations.json')
    with open(path, 'w', encoding='utf-8') as f:
        json.dump(out, f, ensure_ascii=False, indent=1, sort_keys=True)
        f.write('\n')
    print('%s: %s' % (path, {c: len(v) for c, v in out['spellings'].items()}))


if __name__ == '__main__':
    main()
