#!/usr/bin/env python3
"""Prints a markdown table of the seeded changes under /verif/seeded (for DESIGN.md §10)."""
import glob, json, os, re
VERIF = os.path.dirname(os.path.dirname(os.path.abspath(__file__)))
rows = []
for d in sorted(glob.glob(os.path.join(VERIF, 'seeded', '*'))):
    try:
        m = json.load(open(os.path.join(d, 'meta.json')))
    except Exception:
        continue
    what = ''
    notes = os.path.join(d, 'notes.md')
    patch = open(os.path.join(d, 'patch.diff'), encoding='utf-8', errors='replace').read()
    files = sorted(set(re.findall(r'^\+\+\+ b/(\S+)', patch, flags=re.M)))
    file_s = ', '.join(os.path.basename(f) for f in files)
    if os.path.exists(notes):
        for line in open(notes, encoding='utf-8', errors='replace'):
            line = line.strip().lstrip('#').strip()
            if len(line) > 25 and not line.lower().startswith(('notes', 'change', 'patch')):
                what = line[:170]
                break
    det = []
    for r in m.get('ran', []):
        if r['exit'] == 1:
            sigs = [x.get('signature') for x in r.get('replays', []) if x.get('signature')]
            det.append('%s (%s)' % (r['check'], 'no-failing-input-found' if r['no_failing_input_found'] else ', '.join(sigs[:2]) or 'concrete input'))
        elif r['exit'] == 0:
            det.append('%s: MISSED' % r['check'])
    rows.append('| %s | %s | %s | %s |' % (os.path.basename(d), file_s, what.replace('|', '/'), '; '.join(det)))
print('| seeded change | file(s) | what it does | detected by |')
print('|---|---|---|---|')
print('\n'.join(rows))

# --update: rewrite the table between the markers of DESIGN.md
import sys
if '--update' in sys.argv:
    p = os.path.join(VERIF, 'DESIGN.md')
    s = open(p, encoding='utf-8').read()
    a = s.index('<!-- SEEDTABLE-BEGIN -->') + len('<!-- SEEDTABLE-BEGIN -->\n')
    b = s.index('<!-- SEEDTABLE-END -->')
    table = '| seeded change | file(s) | what it does | detected by |\n|---|---|---|---|\n' + '\n'.join(rows) + '\n'
    open(p, 'w', encoding='utf-8').write(s[:a] + table + s[b:])
